"""Oracles of check C05 (independent of piquasso's PassiveState).

Everything here works on a *transmission matrix* A (d x d, ||A|| <= 1) that the harness
assembles itself from the case description, and on the *pure Fock simulator*:

* `halmos(A)`               unitary dilation U = [[A, sqrt(1-AA+)], [sqrt(1-A+A), -A+]]
* `table_indistinguishable` (superpositions of) number states through A: PureFockSimulator
                            on d modes (A unitary) or on the 2d modes of the dilation,
                            environment traced out
* `table_gram_pf`           partially distinguishable photons with internal states in C^r:
                            FockStateVector on D*r modes, kron(U, 1_r) on PureFockSimulator,
                            internal labels traced out
* `table_gram_perm`         the same quantity by the brute-force double sum over
                            permutations (no simulator involved at all)
* `table_classical`         distinguishable particles: independent one-particle transitions

Every table is a dict {occupation tuple over the d system modes: probability}.
"""

from __future__ import annotations

import itertools
import math
import warnings

import numpy as np

from .harness import HarnessError


# ----------------------------------------------------------------------- linear algebra

def embed(d: int, modes, m: np.ndarray) -> np.ndarray:
    e = np.eye(d, dtype=complex)
    e[np.ix_(list(modes), list(modes))] = m
    return e


def halmos(a: np.ndarray) -> np.ndarray:
    """Unitary dilation of a contraction (functions of AA+ taken through the SVD)."""
    d = a.shape[0]
    x, s, yh = np.linalg.svd(a)
    if s.max() > 1 + 1e-12:
        raise HarnessError(f"transmission matrix is not a contraction: {s}")
    s = np.clip(s, 0.0, 1.0)
    c = np.sqrt(1.0 - s**2)
    a = (x * s) @ yh  # A with clipped singular values
    y = yh.conj().T
    u = np.block([[a, (x * c) @ x.conj().T], [(y * c) @ yh, -a.conj().T]])
    err = np.abs(u @ u.conj().T - np.eye(2 * d)).max()
    if err > 1e-12:
        raise HarnessError(f"Halmos dilation not unitary: {err:.2e}")
    return u


def is_unitary(a: np.ndarray, tol: float = 1e-13) -> bool:
    return bool(np.abs(a.conj().T @ a - np.eye(len(a))).max() <= tol)


# ------------------------------------------------------------------- pure Fock simulator

def pf_run(pq, nmodes: int, amp_map: dict, u: np.ndarray, cutoff: int):
    """State vector of PureFockSimulator after Interferometer(u) on all modes."""
    from . import progs

    cutoff = max(cutoff, 3)  # cutoff <= 2 is a separate (fixed) finding of C01: stay clear
    with warnings.catch_warnings():
        warnings.simplefilter("ignore")
        with pq.Program() as program:
            pq.Q() | pq.FockStateVector({tuple(k): complex(v) for k, v in amp_map.items()})
            pq.Q(*range(nmodes)) | pq.Interferometer(u)
        sim = pq.PureFockSimulator(d=nmodes, config=pq.Config(cutoff=cutoff))
        vec = np.asarray(sim.execute(program).state.state_vector)
    basis = progs.basis_tuples(pq, nmodes, cutoff)
    if len(basis) != len(vec):
        raise HarnessError("pure Fock state vector length differs from its basis")
    return vec, basis


def table_indistinguishable(pq, d: int, terms, a: np.ndarray):
    """terms: [(occupation tuple, amplitude)].  Returns (table, amplitudes | None).

    `amplitudes` ({occupation: complex}) is returned when A is unitary (no environment)."""
    nmax = max(sum(o) for o, _ in terms)
    if is_unitary(a):
        vec, basis = pf_run(pq, d, dict(terms), a, nmax + 1)
        amps = {k: complex(v) for k, v in zip(basis, vec)}
        return {k: abs(v) ** 2 for k, v in amps.items()}, amps
    u = halmos(a)
    vec, basis = pf_run(pq, 2 * d, {tuple(o) + (0,) * d: c for o, c in terms}, u, nmax + 1)
    table: dict = {}
    for k, v in zip(basis, vec):
        table[k[:d]] = table.get(k[:d], 0.0) + abs(v) ** 2
    return table, None


def first_quantized(occ):
    return [m for m, c in enumerate(occ) for _ in range(c)]


def table_gram_pf(pq, d: int, occ, a: np.ndarray, v: np.ndarray):
    """Photon i (ordering of `first_quantized(occ)`) carries the internal state v[:, i]."""
    r, n = v.shape
    modes = first_quantized(occ)
    if n != len(modes):
        raise HarnessError("internal-state matrix has the wrong number of columns")
    unitary = is_unitary(a)
    u = a if unitary else halmos(a)
    big = len(u)
    amp: dict = {}
    for ks in itertools.product(range(r), repeat=n):
        c = 1.0 + 0j
        for i, k in enumerate(ks):
            c *= v[k, i]
        if c == 0:
            continue
        o = [0] * (big * r)
        for i, k in enumerate(ks):
            o[modes[i] * r + k] += 1
        c *= math.sqrt(math.prod(math.factorial(x) for x in o))
        amp[tuple(o)] = amp.get(tuple(o), 0j) + c
    nrm = math.sqrt(sum(abs(c) ** 2 for c in amp.values()))
    amp = {k: c / nrm for k, c in amp.items()}
    vec, basis = pf_run(pq, big * r, amp, np.kron(u, np.eye(r)), n + 1)
    table: dict = {}
    for k, x in zip(basis, vec):
        p = abs(x) ** 2
        if p == 0.0:
            continue
        spatial = tuple(sum(k[m * r:(m + 1) * r]) for m in range(d))
        table[spatial] = table.get(spatial, 0.0) + p
    return table


_PERMS: dict = {}


def _perms(n: int) -> np.ndarray:
    if n not in _PERMS:
        _PERMS[n] = np.array(list(itertools.permutations(range(n))), dtype=int).reshape(-1, n)
    return _PERMS[n]


def compositions(nboxes: int, total: int):
    if nboxes == 1:
        yield (total,)
        return
    for x in range(total + 1):
        for rest in compositions(nboxes - 1, total - x):
            yield (x,) + rest


def table_gram_perm(d: int, occ, a: np.ndarray, g: np.ndarray):
    """P(s) = 1/(N prod s!) sum_{sigma,tau} prod_i U[o_i,m_sigma(i)] conj(U[o_i,m_tau(i)])
    <phi_tau(i)|phi_sigma(i)>,  G[i,j] = <phi_i|phi_j>  (documented convention);
    environment modes of the dilation summed over."""
    modes = first_quantized(occ)
    n = len(modes)
    if n == 0:
        return {(0,) * d: 1.0}
    g = np.asarray(g, dtype=complex)
    unitary = is_unitary(a)
    u = a if unitary else halmos(a)
    big = len(u)
    perms = _perms(n)
    ar = np.arange(n)
    # input norm: permutations that keep every photon in its own input mode
    marr = np.array(modes)
    keep = np.all(marr[perms] == marr[None, :], axis=1)
    norm = np.sum(np.prod(g[ar[None, :], perms[keep]], axis=1)).real
    # G[tau(i), sigma(i)] for all (tau, sigma, i)
    gts = g[perms[:, None, :], perms[None, :, :]]
    table: dict = {}
    for s in compositions(big, n):
        o = first_quantized(s)
        m = u[np.ix_(o, modes)]                # m[i, j] = U[o_i, m_j]
        ms = m[ar[None, :], perms]             # ms[sigma, i] = U[o_i, m_sigma(i)]
        val = np.sum(np.prod(ms[None, :, :] * np.conj(ms)[:, None, :] * gts, axis=2))
        p = val.real / (norm * math.prod(math.factorial(x) for x in s))
        if abs(val.imag) > 1e-10:
            raise HarnessError("permutation double sum has an imaginary part")
        table[s[:d]] = table.get(s[:d], 0.0) + p
    return table


def table_classical(d: int, occ, a: np.ndarray):
    """Distinguishable particles: independent one-particle transition probabilities
    |A[o, m]|^2, the remainder 1 - sum_o |A[o, m]|^2 being the loss probability."""
    p1 = np.abs(a) ** 2
    table = {(0,) * d: 1.0}
    for m in first_quantized(occ):
        lost = max(0.0, 1.0 - float(p1[:, m].sum()))
        new: dict = {}
        for k, p in table.items():
            new[k] = new.get(k, 0.0) + p * lost
            for o in range(d):
                kk = k[:o] + (k[o] + 1,) + k[o + 1:]
                new[kk] = new.get(kk, 0.0) + p * float(p1[o, m])
        table = new
    return table


def max_diff(t1: dict, t2: dict) -> float:
    return max(abs(t1.get(k, 0.0) - t2.get(k, 0.0)) for k in set(t1) | set(t2))


# ------------------------------------------------------------------- internal states

def internal_states(sub: str, n: int, r: int, seed: int):
    """Returns (V, G): internal states (r x n, unit columns) and their Gram matrix V+V.

    For sub == 'identity' V is None when n > r would be needed (orthogonal photons need
    n internal dimensions): G is the identity, V = eye(n)."""
    from .progs import rng_of

    rng = rng_of(seed)
    if n == 0:
        return np.zeros((1, 0), dtype=complex), np.zeros((0, 0), dtype=complex)
    if sub == "identity":
        v = np.eye(n, dtype=complex)
    elif sub == "rank1":
        v = np.exp(1j * rng.uniform(0, 2 * np.pi, n))[None, :]
    elif sub == "real":
        v = rng.normal(size=(r, n)).astype(complex)
    elif sub == "clustered":
        # two groups of mutually identical photons (block structure, singular G)
        base = rng.normal(size=(r, 2)) + 1j * rng.normal(size=(r, 2))
        v = base[:, rng.integers(0, 2, n)] * np.exp(1j * rng.uniform(0, 2 * np.pi, n))[None, :]
    else:  # "complex"
        v = rng.normal(size=(r, n)) + 1j * rng.normal(size=(r, n))
    v = v / np.linalg.norm(v, axis=0, keepdims=True)
    g = v.conj().T @ v
    g = (g + g.conj().T) / 2
    np.fill_diagonal(g, 1.0)
    return v, g


def scalar_gram(n: int, lam: float) -> np.ndarray:
    return (1.0 - lam) * np.eye(n, dtype=complex) + lam * np.ones((n, n), dtype=complex)
