"""Reference ("oracle") implementations of the matrix functions checked by C04.

Everything here is the *defining sum* of the function, evaluated in exact arithmetic:

* a binary floating-point number is a dyadic rational, so a float matrix is converted
  exactly to an integer matrix times a power of two (`scale_to_int`); the sums over
  permutations / contingency tables / perfect matchings / signed matchings are then sums
  of products of Python integers (Gaussian integers for complex input) -- no rounding at
  all, whatever the multiplicities;
* the (loop) torontonian needs a square root and an exponential per subset: the
  determinants and quadratic forms are exact rationals (fraction-free Bareiss
  elimination), `sqrt`/`exp` are taken by mpmath at 50 digits.

The grouped recursions (multiplicity-aware) are cross-checked against the literal
enumerations (`*_literal`) by the `oracle_selfcheck` part of C04.

The second half of the file computes, in ordinary float64, the magnitude sums
`sum |terms|` of the *algorithm's own* formula that scale the comparison tolerance.
Nothing in this file imports piquasso.
"""

from __future__ import annotations

import itertools
import math
from fractions import Fraction
from functools import lru_cache

import numpy as np

try:  # only sqrt / exp / final conversion use mpmath
    import mpmath

    mpmath.mp.dps = 50
except Exception:  # pragma: no cover
    mpmath = None


# =====================================================================================
# exact numbers
# =====================================================================================

class G:
    """Gaussian integer a + b i with Python ints (exact ring arithmetic)."""

    __slots__ = ("a", "b")

    def __init__(self, a=0, b=0):
        self.a = a
        self.b = b

    def __add__(self, o):
        return G(self.a + o.a, self.b + o.b)

    def __sub__(self, o):
        return G(self.a - o.a, self.b - o.b)

    def __neg__(self):
        return G(-self.a, -self.b)

    def __mul__(self, o):
        if isinstance(o, int):
            return G(self.a * o, self.b * o)
        return G(self.a * o.a - self.b * o.b, self.a * o.b + self.b * o.a)

    __rmul__ = __mul__

    def is_zero(self):
        return self.a == 0 and self.b == 0

    def __eq__(self, o):
        return self.a == o.a and self.b == o.b

    def __hash__(self):
        return hash((self.a, self.b))

    def __repr__(self):
        return f"G({self.a},{self.b})"


G0 = G(0, 0)
G1 = G(1, 0)


def _float_to_int_exp(x: float) -> tuple[int, int]:
    """x == m * 2**-e exactly, e >= 0."""
    if x == 0.0:
        return 0, 0
    num, den = float(x).as_integer_ratio()
    return num, den.bit_length() - 1


def scale_to_int(values) -> tuple[list, int]:
    """Flat list of python floats -> (list of ints, s) with value == int * 2**-s exactly."""
    pairs = [_float_to_int_exp(v) for v in values]
    s = max((e for _, e in pairs), default=0)
    return [m << (s - e) for m, e in pairs], s


def matrix_to_G(A: np.ndarray) -> tuple[list[list[G]], int]:
    """Exact conversion of a real/complex float array (any float dtype) to Gaussian
    integers with a common scale 2**-s."""
    A = np.asarray(A)
    flat = np.asarray(A, dtype=np.complex128).ravel()
    vals = []
    for z in flat:
        vals.append(float(z.real))
        vals.append(float(z.imag))
    ints, s = scale_to_int(vals)
    it = iter(ints)
    g = [G(a, b) for a, b in zip(it, it)]
    if A.ndim == 1:
        return g, s  # type: ignore[return-value]
    n, m = A.shape
    return [g[i * m:(i + 1) * m] for i in range(n)], s


def matrix_to_int(A: np.ndarray) -> tuple[list[list[int]], int]:
    A = np.asarray(A, dtype=np.float64)
    ints, s = scale_to_int([float(x) for x in A.ravel()])
    if A.ndim == 1:
        return ints, s  # type: ignore[return-value]
    n, m = A.shape
    return [ints[i * m:(i + 1) * m] for i in range(n)], s


def _ratio_to_float(num: int, shift: int) -> float:
    """num * 2**-shift correctly rounded to double (0 / inf on under/overflow)."""
    if num == 0:
        return 0.0
    try:
        return float(Fraction(num, 1 << shift)) if shift >= 0 else float(num << (-shift))
    except OverflowError:
        return math.copysign(math.inf, num)


def G_to_complex(g: G, shift: int) -> complex:
    return complex(_ratio_to_float(g.a, shift), _ratio_to_float(g.b, shift))


# =====================================================================================
# permanent
# =====================================================================================

def permanent_literal(A: list[list], one, zero):
    """sum over permutations of prod_i A[i][sigma(i)] (square matrix of ring elements)."""
    n = len(A)
    total = zero
    for sigma in itertools.permutations(range(n)):
        t = one
        for i in range(n):
            t = t * A[i][sigma[i]]
        total = total + t
    return total


def expand(A, rows, cols):
    """Matrix with row i repeated rows[i] times and column j repeated cols[j] times."""
    ri = [i for i, r in enumerate(rows) for _ in range(r)]
    cj = [j for j, c in enumerate(cols) for _ in range(c)]
    return [[A[i][j] for j in cj] for i in ri]


def permanent_tables(A: list[list[G]], rows, cols) -> G:
    """Exact permanent with multiplicities through the contingency-table formula

        per = sum_M  prod_i r_i! prod_j c_j! / prod_ij m_ij!  prod_ij A_ij^{m_ij},

    M running over non-negative integer matrices with row sums `rows` and column sums
    `cols` (M counts how many of the permutations' arrows go from copy-group i to
    copy-group j).  Evaluated row by row; the state is the vector of column
    multiplicities still to be used.  Requires sum(rows) == sum(cols).
    """
    rows = [int(r) for r in rows]
    cols = [int(c) for c in cols]
    if sum(rows) != sum(cols):
        raise ValueError("sum(rows) != sum(cols)")
    ncol = len(cols)
    f = {tuple(cols): G1}
    for i, r in enumerate(rows):
        if r == 0:
            continue
        # powers of the entries of this row
        pw = []
        for j in range(ncol):
            p = [G1]
            for _ in range(min(r, cols[j])):
                p.append(p[-1] * A[i][j])
            pw.append(p)
        new: dict = {}

        def rec(j, left, state, acc, out):
            # distribute `left` copies of row i over columns j.. ; acc already contains
            # the multinomial factor and the powers for columns < j
            if j == ncol - 1:
                if left > state[j]:
                    return
                v = acc * pw[j][left]
                st = out + (state[j] - left,)
                cur = new.get(st)
                new[st] = v if cur is None else cur + v
                return
            # the columns after j can absorb at most `cap` copies
            cap = sum(state[j + 1:])
            lo = max(0, left - cap)
            hi = min(left, state[j])
            for m in range(lo, hi + 1):
                rec(j + 1, left - m, state, acc * (pw[j][m] * math.comb(left, m)),
                    out + (state[j] - m,))

        for state, val in f.items():
            if val.is_zero():
                continue
            rec(0, r, state, val, ())
        f = new
    zero_state = tuple(0 for _ in cols)
    val = f.get(zero_state, G0)
    fac = 1
    for c in cols:
        fac *= math.factorial(c)
    return val * fac


def permanent_ref(A: np.ndarray, rows, cols) -> complex:
    """Correctly rounded exact permanent of a float matrix with multiplicities."""
    n = int(sum(rows))
    if n == 0:
        return 1.0 + 0j
    Ag, s = matrix_to_G(A)
    g = permanent_tables(Ag, rows, cols)
    return G_to_complex(g, s * n)


def permanent_tables_cost(rows, cols) -> int:
    """Rough operation count of `permanent_tables` (used by generators to stay cheap)."""
    states = 1
    for c in cols:
        states *= c + 1
    k = len(cols)
    worst = 0
    for r in rows:
        worst += math.comb(r + k - 1, k - 1)
    return states * max(1, worst)


# =====================================================================================
# hafnian / loop hafnian
# =====================================================================================

def perfect_matchings(idx: list[int]):
    """All perfect matchings of the list of vertices (as lists of pairs)."""
    if not idx:
        yield []
        return
    a = idx[0]
    for k in range(1, len(idx)):
        b = idx[k]
        rest = idx[1:k] + idx[k + 1:]
        for m in perfect_matchings(rest):
            yield [(a, b)] + m


def matchings_with_loops(idx: list[int]):
    """All partitions of the vertices into pairs and singletons (loops)."""
    if not idx:
        yield []
        return
    a = idx[0]
    for m in matchings_with_loops(idx[1:]):
        yield [(a, a)] + m
    for k in range(1, len(idx)):
        b = idx[k]
        rest = idx[1:k] + idx[k + 1:]
        for m in matchings_with_loops(rest):
            yield [(a, b)] + m


def hafnian_literal(A: list[list], one, zero):
    n = len(A)
    total = zero
    for m in perfect_matchings(list(range(n))):
        t = one
        for a, b in m:
            t = t * A[a][b]
        total = total + t
    return total


def loop_hafnian_literal(A: list[list], one, zero):
    """Loops use the diagonal entries A[a][a]."""
    n = len(A)
    total = zero
    for m in matchings_with_loops(list(range(n))):
        t = one
        for a, b in m:
            t = t * A[a][b]
        total = total + t
    return total


def hafnian_rep(A: list[list], diag, occ, one, zero, loop: bool):
    """(Loop) hafnian of the matrix reduced by the occupation numbers `occ`:
    vertex i is repeated occ[i] times, two different copies of vertex i are joined by
    A[i][i], a loop on a copy of i weighs diag[i].  Sum over perfect matchings (with
    loops) of the expanded graph, grouped by multiplicities:

        H(n) = [loop] d_i H(n - e_i) + sum_j (n_j - delta_ij) A_ij H(n - e_i - e_j)

    with i the first vertex that still has copies (its first copy is matched with one
    of the remaining copies, or looped)."""
    occ = tuple(int(x) for x in occ)
    d = len(occ)
    memo: dict = {}

    def H(n):
        v = memo.get(n)
        if v is not None:
            return v
        i = next((k for k in range(d) if n[k]), None)
        if i is None:
            return one
        n1 = n[:i] + (n[i] - 1,) + n[i + 1:]
        total = zero
        if loop:
            total = total + diag[i] * H(n1)
        for j in range(i, d):
            if n1[j] == 0:
                continue
            n2 = n1[:j] + (n1[j] - 1,) + n1[j + 1:]
            total = total + (A[i][j] * n1[j]) * H(n2)
        memo[n] = total
        return total

    if not loop and sum(occ) % 2:
        return zero
    return H(occ)


def hafnian_ref(A: np.ndarray, occ) -> complex:
    n = int(sum(occ))
    if n == 0:
        return 1.0 + 0j
    if n % 2:
        return 0j
    Ag, s = matrix_to_G(A)
    g = hafnian_rep(Ag, None, occ, G1, G0, loop=False)
    return G_to_complex(g, s * (n // 2))


def loop_hafnian_ref(A: np.ndarray, diag: np.ndarray, occ) -> complex:
    """Exact loop hafnian.  A pair carries scale 2**-s, a loop 2**-s as well, so the
    weight of a matching with p pairs and l loops (2p + l = n) is 2**-(s (p + l)); to sum
    them with one common scale the diagonal is pre-multiplied so that a loop carries
    2**-(s/2)...  simpler: use separate scales sA (pairs) and sD (loops) with sA = 2 sD."""
    n = int(sum(occ))
    if n == 0:
        return 1.0 + 0j
    d = len(occ)
    flatA = np.asarray(A, dtype=np.complex128).ravel()
    flatD = np.asarray(diag, dtype=np.complex128).ravel()
    valsA, valsD = [], []
    for z in flatA:
        valsA += [float(z.real), float(z.imag)]
    for z in flatD:
        valsD += [float(z.real), float(z.imag)]
    iA, sA = scale_to_int(valsA)
    iD, sD = scale_to_int(valsD)
    # common convention: a vertex carries 2**-t, a pair 2**-2t
    t = max(sD, (sA + 1) // 2)
    iA = [x << (2 * t - sA) for x in iA]
    iD = [x << (t - sD) for x in iD]
    itA = iter(iA)
    gA = [G(a, b) for a, b in zip(itA, itA)]
    itD = iter(iD)
    gD = [G(a, b) for a, b in zip(itD, itD)]
    Ag = [gA[i * d:(i + 1) * d] for i in range(d)]
    g = hafnian_rep(Ag, gD, occ, G1, G0, loop=True)
    return G_to_complex(g, t * n)


# =====================================================================================
# determinant / pfaffian (exact integers)
# =====================================================================================

def det_int(M: list[list[int]]) -> int:
    """Fraction-free (Bareiss) determinant of an integer matrix."""
    n = len(M)
    if n == 0:
        return 1
    M = [row[:] for row in M]
    sign = 1
    prev = 1
    for k in range(n - 1):
        if M[k][k] == 0:
            p = next((i for i in range(k + 1, n) if M[i][k] != 0), None)
            if p is None:
                return 0
            M[k], M[p] = M[p], M[k]
            sign = -sign
        for i in range(k + 1, n):
            for j in range(k + 1, n):
                M[i][j] = (M[i][j] * M[k][k] - M[i][k] * M[k][j]) // prev
        prev = M[k][k]
    return sign * M[n - 1][n - 1]


def det_literal(M: list[list[int]]) -> int:
    n = len(M)
    total = 0
    for sigma in itertools.permutations(range(n)):
        inv = sum(1 for i in range(n) for j in range(i + 1, n) if sigma[i] > sigma[j])
        t = -1 if inv % 2 else 1
        for i in range(n):
            t *= M[i][sigma[i]]
        total += t
    return total


def pfaffian_literal(M: list[list[int]]) -> int:
    """sum over perfect matchings {(i1<j1),...,(ik<jk)}, i1<i2<..., of
    sgn(i1 j1 i2 j2 ...) prod M[i][j]."""
    n = len(M)
    if n % 2:
        return 0
    total = 0
    for m in perfect_matchings(list(range(n))):
        perm = [v for pair in m for v in pair]
        inv = sum(1 for i in range(n) for j in range(i + 1, n) if perm[i] > perm[j])
        t = -1 if inv % 2 else 1
        for a, b in m:
            t *= M[a][b]
        total += t
    return total


def pfaffian_int(M: list[list[int]]) -> int:
    """Signed matching sum by expansion along the first remaining row (memoised)."""
    n = len(M)
    if n % 2:
        return 0

    @lru_cache(maxsize=None)
    def pf(idx: tuple) -> int:
        if not idx:
            return 1
        a = idx[0]
        total = 0
        for k in range(1, len(idx)):
            b = idx[k]
            if M[a][b] == 0:
                continue
            rest = idx[1:k] + idx[k + 1:]
            t = M[a][b] * pf(rest)
            total += t if k % 2 else -t
        return total

    return pf(tuple(range(n)))


def pfaffian_ref(A: np.ndarray) -> tuple[float, float]:
    """(Pf(A), det(A)) correctly rounded, for a real float matrix (used as given; the
    caller guarantees skew symmetry)."""
    n = A.shape[0]
    if n == 0:
        return 1.0, 1.0
    Mi, s = matrix_to_int(A)
    det = _ratio_to_float(det_int(Mi), s * n)
    if n % 2:
        return 0.0, det
    return _ratio_to_float(pfaffian_int(Mi), s * (n // 2)), det


# =====================================================================================
# torontonian / loop torontonian
# =====================================================================================

def _mp_ratio(num: int, shift: int):
    return mpmath.mpf(num) / mpmath.mpf(2) ** shift


def torontonian_terms(A: np.ndarray, gamma: np.ndarray | None = None):
    """Terms of the defining sum of the (loop) torontonian in the xpxp ordering used by
    piquasso (mode k owns rows/columns 2k, 2k+1):

        tor(A)      = sum_Z (-1)^{d-|Z|} / sqrt(det(1 - A_Z))
        ltor(A, g)  = sum_Z (-1)^{d-|Z|} exp(g_Z^T (1 - A_Z)^{-1} g_Z / 2) / sqrt(det(1 - A_Z))

    over all subsets Z of the d modes (the empty set contributes (-1)^d).  Determinants
    and quadratic forms are exact rationals (g^T M^{-1} g = -det([[M, g],[g^T, 0]])/det M);
    sqrt and exp by mpmath.  Returns a list of (Z, term as mpf, det as float, y as float).
    Raises ValueError when some det(1 - A_Z) <= 0 (outside the domain)."""
    A = np.asarray(A, dtype=np.float64)
    dim = A.shape[0]
    d = dim // 2
    Ai, s = matrix_to_int(A)
    one = 1 << s
    Mi = [[(one if i == j else 0) - Ai[i][j] for j in range(dim)] for i in range(dim)]
    if gamma is not None:
        gi, sg = matrix_to_int(np.asarray(gamma, dtype=np.float64))
    out = []
    for k in range(d + 1):
        for Z in itertools.combinations(range(d), k):
            sign = -1 if (d - k) % 2 else 1
            if k == 0:
                out.append((Z, mpmath.mpf(sign), 1.0, 0.0))
                continue
            ix = [2 * m + b for m in Z for b in (0, 1)]
            sub = [[Mi[i][j] for j in ix] for i in ix]
            dt = det_int(sub)
            if dt <= 0:
                raise ValueError(f"det(1 - A_Z) <= 0 for Z={Z}")
            det = _mp_ratio(dt, s * 2 * k)
            term = sign / mpmath.sqrt(det)
            y = mpmath.mpf(0)
            if gamma is not None:
                g = [gi[i] for i in ix]
                if any(g):
                    bordered = [sub[r] + [g[r]] for r in range(2 * k)] + [g + [0]]
                    num = -det_int(bordered)
                    # num carries 2**-(s(2k-1) + 2 sg), dt carries 2**-(s 2k)
                    y = (mpmath.mpf(num) / mpmath.mpf(dt)) * mpmath.mpf(2) ** (s - 2 * sg)
                    term = term * mpmath.exp(y / 2)
            out.append((Z, term, float(det), float(y)))
    return out


def torontonian_ref(A: np.ndarray, gamma: np.ndarray | None = None):
    """(value, sum of |term| * weight) -- weight = cond_2(1 - A_Z) * (1 + y_Z / 2): the
    first-order sensitivity of one term to a backward error of the Cholesky factor."""
    terms = torontonian_terms(A, gamma)
    val = mpmath.fsum(t for _, t, _, _ in terms)
    A = np.asarray(A, dtype=np.float64)
    M = np.eye(A.shape[0]) - A
    S = 0.0
    for Z, t, _det, y in terms:
        if not Z:
            S += 1.0
            continue
        ix = [2 * m + b for m in Z for b in (0, 1)]
        sub = M[np.ix_(ix, ix)]
        ev = np.linalg.eigvalsh((sub + sub.T) / 2)
        kappa = float(ev[-1] / ev[0]) if ev[0] > 0 else math.inf
        S += abs(float(t)) * kappa * (1.0 + abs(y) / 2)
    return float(val), S


# =====================================================================================
# magnitude sums  (float64; only the order of magnitude matters)
# =====================================================================================

def glynn_abs_sum(A: np.ndarray, rows, cols) -> float:
    """Sum of the absolute values of the addends of the Glynn/BBFG formula with row
    multiplicities, divided by the same 2**(n-1) as the value:

        (1/2^n) sum_{0<=k_i<=r_i} prod_i C(r_i, k_i) prod_j |sum_i (r_i - 2 k_i) A_ij|^{c_j}

    (the sum over all sign patterns is twice the sum with one copy fixed to +1, so this
    equals the magnitude sum of the formula as implemented, whichever row is split)."""
    A = np.asarray(A, dtype=np.complex128)
    rows = [int(r) for r in rows]
    cols = [int(c) for c in cols]
    n = sum(rows)
    if n == 0:
        return 1.0
    act = [i for i, r in enumerate(rows) if r > 0]
    grids = np.meshgrid(*[np.arange(rows[i] + 1) for i in act], indexing="ij")
    logw = np.zeros(grids[0].shape)
    colsum = np.zeros(grids[0].shape + (len(cols),), dtype=np.complex128)
    for g, i in zip(grids, act):
        r = rows[i]
        logw += np.array([math.log(math.comb(r, k)) for k in range(r + 1)])[g]
        colsum += (r - 2 * g)[..., None] * A[i][None, :]
    c = np.array(cols, dtype=float)
    with np.errstate(divide="ignore", invalid="ignore"):
        la = np.log(np.abs(colsum))
        # 0 * log 0 = 0
        prod_log = np.where(c > 0, c * la, 0.0).sum(axis=-1)
    tot = logw + prod_log - n * math.log(2.0)
    m = float(np.max(tot))
    if not math.isfinite(m):
        return 0.0 if m < 0 else math.inf
    if m > 700:
        return math.inf
    return float(np.exp(tot - m).sum() * math.exp(m))


def glynn_max_addend(A: np.ndarray, rows, cols) -> float:
    """Largest |addend| *before* the division by 2**(n-1) (overflow guard for float32)."""
    A = np.asarray(A, dtype=np.complex128)
    rows = [int(r) for r in rows]
    tot_r = np.array(rows, dtype=float)
    big = (tot_r[:, None] * np.abs(A)).sum(axis=0)  # max |colsum_j|
    n = sum(rows)
    with np.errstate(divide="ignore"):
        lg = sum(c * math.log(b) for c, b in zip(cols, big) if c > 0 and b > 0)
    lg += sum(math.log(math.comb(r, r // 2)) for r in rows)
    return lg / math.log(10.0) if n else 0.0  # log10


def _f_coeff(factors: np.ndarray, m: int) -> float:
    """[z^m] exp(sum_k factors[k-1] z^k)."""
    coef = np.zeros(m + 1)
    coef[0] = 1.0
    for k in range(1, m + 1):
        new = coef.copy()
        pw = 1.0
        for j in range(1, m // k + 1):
            pw = pw * factors[k - 1] / j
            new[k * j:] += coef[:m + 1 - k * j] * pw
        coef = new
    return float(coef[m])


def powertrace_abs_sum(A: np.ndarray, diag: np.ndarray | None, occ, order=None,
                       pad_unit=False) -> float:
    """Majorant of the magnitude sum of the power-trace (Glynn-type) hafnian formula.

    Every addend of the formula is  +-[z^m] exp(sum_k (tr(M^k)/(2k) + l_k/2) z^k)  with
    M = X D A', A' the expanded (2m x 2m) matrix, X the pairing permutation, D a diagonal
    sign matrix and l_k = dL^T M^(k-1) dR the loop corrections.  X and D are unitary, so
    by Weyl's majorant theorem |tr(M^k)| <= sum_i sigma_i(A')^k =: tau_k, whatever the
    pairing and the signs, and |l_k| <= |d|^2 sigma_max^(k-1).  The coefficient of a
    power series exp(...) is bounded by the coefficient for the bounds, there are
    2^(m-1) addends and the sum is divided by 2^(m-1): the majorant is

        F = [z^m] exp(sum_k (tau_k/(2k) + |d|^2 sigma_max^(k-1)/2) z^k).

    The batched variants obtain the value for `occ + k e_last`, k < cutoff, as the
    coefficient of order `order` = ceil((|occ| + k)/2) of the series of the *largest*
    expanded matrix (last mode repeated up to the cutoff, plus the unit padding vertex):
    pass that occupation vector, `order` and `pad_unit=True`; their addends carry one more
    binomial weight whose sum is at most 2 * 2^(order), i.e. a factor 2 (applied by the
    caller)."""
    occ = [int(x) for x in occ]
    n = sum(occ)
    if n == 0:
        return 1.0
    A = np.asarray(A, dtype=np.complex128)
    idx = [i for i, k in enumerate(occ) for _ in range(k)]
    E = A[np.ix_(idx, idx)]
    dv = None if diag is None else np.asarray(diag, dtype=np.complex128)[idx]
    if n % 2 or pad_unit:
        if diag is None:
            if n % 2 and order is None:
                return 1.0
        else:
            # the implementation pads with a unit vertex carrying a unit loop
            E = np.block([[np.ones((1, 1)), np.zeros((1, n))], [np.zeros((n, 1)), E]])
            dv = np.concatenate([[1.0], dv])
            n += 1
    m = (n // 2) if order is None else int(order)
    if m == 0:
        return 1.0
    sv = np.linalg.svd(E, compute_uv=False)
    smax = float(sv[0]) if len(sv) else 0.0
    d2 = 0.0 if dv is None else float(np.sum(np.abs(dv) ** 2))
    factors = np.zeros(m)
    for k in range(1, m + 1):
        factors[k - 1] = float(np.sum(sv ** k)) / (2 * k) + d2 * smax ** (k - 1) / 2
    return _f_coeff(factors, m)


def hafnian_abs(A: np.ndarray) -> float:
    """haf(|A|) in float (magnitude sum of the Pfaffian's defining sum)."""
    A = np.abs(np.asarray(A, dtype=np.float64))
    n = A.shape[0]
    if n % 2:
        return 0.0

    @lru_cache(maxsize=None)
    def h(idx):
        if not idx:
            return 1.0
        a = idx[0]
        return sum(A[a, idx[k]] * h(idx[1:k] + idx[k + 1:]) for k in range(1, len(idx)))

    return float(h(tuple(range(n))))


def pfaffian_error_bound(A: np.ndarray, u: float) -> float:
    """Bound of |Pf(A + dA) - Pf(A)| for the normwise backward error of an elimination
    algorithm: every off-diagonal entry (structural zeros included, elimination fills
    in) is perturbed by at most eps = n u max|A|:

        haf(|A| + eps J) - haf(|A|) = sum_{k>=1} eps^k c_k,

    c_k = sum over perfect matchings with exactly k unit-weight edges and the others
    weighted |a_ij| (accumulated per order, so there is no cancellation).  The first
    order alone is >= n u (n/2) haf|A|."""
    A = np.abs(np.asarray(A, dtype=np.float64))
    n = A.shape[0]
    if n % 2:
        return 0.0
    if n == 0:
        return u
    h = n // 2
    amax = float(A.max())

    @lru_cache(maxsize=None)
    def go(idx):
        if not idx:
            c = np.zeros(h + 1)
            c[0] = 1.0
            return c
        a = idx[0]
        tot = np.zeros(h + 1)
        for k in range(1, len(idx)):
            sub = go(idx[1:k] + idx[k + 1:])
            tot += A[a, idx[k]] * sub
            tot[1:] += sub[:-1]
        return tot

    c = go(tuple(range(n)))
    eps = n * u * amax
    return float(sum(eps ** k * c[k] for k in range(1, h + 1)))


def binomial_overflow_bound(rows) -> int:
    """Upper bound of the largest intermediate integer formed by the native permanent's
    running product of binomial coefficients, for row multiplicities `rows` (before the
    split of one copy of the smallest non-zero row):

        max_i [ max_k k C(r'_i, k) * prod_{j != i} max_k C(r'_j, k) ].

    The native code keeps this in an `int`; the arithmetic is well defined iff the bound
    is < 2**31."""
    rows = [int(r) for r in rows if int(r) > 0]
    if not rows:
        return 1
    m = min(rows)
    rp = list(rows)
    rp[rp.index(m)] -= 1
    rp = [r for r in rp if r > 0]
    if not rp:
        return 1
    cmax = [math.comb(r, r // 2) for r in rp]
    kmax = [max(k * math.comb(r, k) for k in range(r + 1)) for r in rp]
    best = 0
    for i in range(len(rp)):
        p = kmax[i]
        for j in range(len(rp)):
            if j != i:
                p *= cmax[j]
        best = max(best, p)
    return best


def binomial_product_max(rows) -> int:
    """Largest value of the running binomial product itself (what must fit an int for
    the *stored* value to be right)."""
    rows = [int(r) for r in rows if int(r) > 0]
    if not rows:
        return 1
    m = min(rows)
    rp = list(rows)
    rp[rp.index(m)] -= 1
    p = 1
    for r in rp:
        p *= math.comb(r, r // 2)
    return p
