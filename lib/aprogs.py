"""Adaptive program descriptions: gates, mid-circuit measurements, post-selection,
conditions (`.when`) and outcome-dependent parameters, for every simulator.

    {"sim": "PF", "d": 3, "cutoff": 4, "hbar": 2.0, "prep": {...},
     "steps": [{"k": "gate", "g": "Beamsplitter", "modes": [2, 0], "p": {...},
                "when": "x[0] == 1" | None, "when_lambda": bool,
                "pexpr": {"phi": "x[0] * 0.3"}, "pexpr_lambda": bool},
               {"k": "measure", "m": "ParticleNumberMeasurement", "modes": [1], "p": {}},
               {"k": "postselect", "modes": [0], "photons": [1]}]}

Modes are original labels (piquasso remaps internally).  `all_modes: true` on a step
means the instruction is registered with `pq.Q()` (no explicit modes).
"""

from __future__ import annotations

import numpy as np
from hypothesis import strategies as st

from . import progs

MID = {
    "PF": ["ParticleNumberMeasurement"],
    "P": ["ParticleNumberMeasurement"],
    "G": ["HomodyneMeasurement", "HeterodyneMeasurement", "GeneraldyneMeasurement"],
    "F": [],
}
FINAL = {
    "PF": ["ParticleNumberMeasurement", "HomodyneMeasurement"],
    "P": ["ParticleNumberMeasurement"],
    "G": ["ParticleNumberMeasurement", "ThresholdMeasurement", "HomodyneMeasurement",
          "HeterodyneMeasurement", "GeneraldyneMeasurement"],
    "F": ["ParticleNumberMeasurement"],
}
SHOTS_NONE_OK = {"PF": ["ParticleNumberMeasurement"],
                 "P": ["ParticleNumberMeasurement", "ImperfectParticleNumberMeasurement"],
                 "F": ["ParticleNumberMeasurement"], "G": []}
GATES = {
    "PF": progs.PASSIVE + progs.KERR + ["Squeezing", "Displacement", "PositionDisplacement"],
    "P": progs.PASSIVE + progs.KERR,
    "F": progs.PASSIVE + progs.KERR + ["Squeezing", "Displacement"],
    "G": progs.PASSIVE + progs.ACTIVE_GAUSS + progs.DISPLACE,
}
# scalar parameter that an outcome expression may drive, per gate
EXPR_PARAM = {"Phaseshifter": "phi", "Beamsplitter": "theta", "Kerr": "xi", "CrossKerr": "xi",
              "Squeezing": "r", "Displacement": "r", "MachZehnder": "int_",
              "PositionDisplacement": "x", "QuadraticPhase": "s", "Squeezing2": "r",
              "MomentumDisplacement": "p"}


# second scalar parameter of the same gate (both may depend on outcomes at once)
EXPR_PARAM2 = {"Beamsplitter": "phi", "Squeezing": "phi", "Displacement": "phi",
               "MachZehnder": "ext", "Squeezing2": "phi"}


def n_outcomes(step) -> int:
    if step["k"] != "measure":
        return 0
    k = len(step["modes"])
    if step["m"] in ("HeterodyneMeasurement", "GeneraldyneMeasurement", "HomodyneMeasurement"):
        return None  # continuous; count decided by the simulator (see C02 findings)
    return k


@st.composite
def condition(draw, nout: int, continuous: bool):
    i = draw(st.integers(-nout, nout - 1))
    if continuous:
        form = draw(st.sampled_from(["x[{i}] > 0.0", "x[{i}] < 0.1", "not x[{i}] > 0",
                                     "x[{i}] * x[{i}] > 0.5", "-1 < x[{i}] < 1"]))
        return form.format(i=i)
    v = draw(st.integers(0, 2))
    form = draw(st.sampled_from([
        "x[{i}] == {v}", "x[{i}] != {v}", "x[{i}] > {v}", "x[{i}] >= {v}", "x[{i}] < {v}",
        "not x[{i}]", "x[{i}] == {v} or x[0] > 1", "x[{i}] % 2 == 0", "0 <= x[{i}] < {v}",
        "x[{i}] == {v} and x[-1] >= 0", "x[{i}]",
    ]))
    return form.format(i=i, v=v)


@st.composite
def param_expr(draw, nout: int, continuous: bool = False):
    i = draw(st.integers(-nout, nout - 1))
    c = draw(st.sampled_from([0.1, 0.3, -0.2, 0.25]))
    if continuous:
        # dyne outcomes are unbounded (the Gaussian homodyne even returns the
        # anti-squeezed quadrature, variance ~1e8): keep the parameter bounded
        form = draw(st.sampled_from(["{c} * (x[{i}] > 0)", "{c} * (x[{i}] < 0.5) + 0.05",
                                     "{c} * (-1 < x[{i}] < 1)"]))
        return form.format(i=i, c=c)
    form = draw(st.sampled_from(["x[{i}] * {c}", "{c} + x[{i}] * 0.1", "{c} * (x[{i}] + 1)",
                                 "x[{i}] / 4", "-x[{i}] * {c}", "{c} * x[{i}] ** 2"]))
    return form.format(i=i, c=c)


def imperfect_params(draw, cutoff):
    """Detector efficiency matrix P[detected, actual]: `cols` actual counts (>= cutoff so
    every reachable count has a column), `rows` detectable counts — square, click-type
    (fewer rows) or with extra rows."""
    cols = cutoff + draw(st.integers(0, 1))
    rows = draw(st.sampled_from([2, max(2, cols - 1), cols, cols + 1]))
    return {"dseed": draw(st.integers(0, 2**16)), "rows": rows, "cols": cols}


@st.composite
def adaptive_program(draw, sim: str, max_meas: int = 3, allow_postselect: bool = True,
                     dmax: int = 4, final_measure=None, imperfect: bool = False):
    d = draw(st.integers(2, dmax))
    if sim == "G":
        prep = {"kind": "vacuum"}
        cutoff = draw(st.integers(3, 5))
    else:
        nmax = draw(st.integers(1, 3))
        # (P: ParticleNumberMeasurement is documented as unsupported for superpositions)
        prep = draw(progs.prep(d, nmax, kinds=("number", "number", "superposition")
                               if sim == "PF" else ("number",)))
        n = progs.prep_max_photons(prep, d)
        cutoff = n + 1 + (draw(st.integers(0, 2)) if sim in ("PF", "F") else 0)
    active = list(range(d))
    steps = []
    nout = 0
    continuous = sim == "G"
    nsteps = draw(st.integers(1, 7))
    nmeas = 0
    for _ in range(nsteps):
        if not active:
            break
        choices = ["gate", "gate", "gate"]
        if MID[sim] and nmeas < max_meas and len(active) >= 2:
            choices += ["measure", "measure"]
        if allow_postselect and sim in ("PF", "P") and len(active) >= 2:
            choices += ["postselect"]
        kind = draw(st.sampled_from(choices))
        if kind == "gate":
            g = draw(progs.gate(d, GATES[sim], scale=0.6, pool=active))
            step = {"k": "gate", **g}
            if draw(st.integers(0, 9)) == 0 and len(g["modes"]) == len(active) and \
                    progs.ARITY[g["g"]] is None and len(active) == d and not steps:
                step["all_modes"] = True
            if nout:
                if draw(st.integers(0, 2)) == 0:
                    step["when"] = draw(condition(nout, continuous))
                    step["when_lambda"] = draw(st.booleans())
                if g["g"] in EXPR_PARAM and draw(st.integers(0, 2)) == 0:
                    step["pexpr"] = {EXPR_PARAM[g["g"]]: draw(param_expr(nout, continuous))}
                    if g["g"] in EXPR_PARAM2 and draw(st.booleans()):
                        step["pexpr"][EXPR_PARAM2[g["g"]]] = draw(
                            param_expr(nout, continuous))
                    step["pexpr_lambda"] = draw(st.booleans())
            steps.append(step)
        elif kind == "measure":
            k = draw(st.integers(1, len(active) - 1))
            modes = draw(progs.ordered_modes(d, k, active))
            m = draw(st.sampled_from(MID[sim]))
            p = {}
            # (mid-circuit imperfect counting is only documented for the passive simulator)
            if imperfect and sim == "P" and m == "ParticleNumberMeasurement" \
                    and draw(st.integers(0, 3)) == 0:
                m = "ImperfectParticleNumberMeasurement"
                p = imperfect_params(draw, cutoff)
            if m == "HomodyneMeasurement":
                p = {"phi": draw(progs.angle())}
            if m == "GeneraldyneMeasurement":
                p = {"seed": draw(st.integers(0, 2**16))}
            steps.append({"k": "measure", "m": m, "modes": modes, "p": p})
            active = [a for a in active if a not in modes]
            nmeas += 1
            nout += (2 * k if continuous else k)
        else:
            k = draw(st.integers(1, len(active) - 1))
            modes = draw(progs.ordered_modes(d, k, active))
            photons = [draw(st.integers(0, 1)) for _ in modes]
            steps.append({"k": "postselect", "modes": modes, "photons": photons})
            active = [a for a in active if a not in modes]
    fm = final_measure if final_measure is not None else draw(st.booleans())
    if fm and active:
        m = draw(st.sampled_from(FINAL[sim]))
        k = draw(st.integers(1, len(active)))
        modes = draw(progs.ordered_modes(d, k, active))
        p = {}
        if imperfect and m == "ParticleNumberMeasurement" and draw(st.integers(0, 3)) == 0:
            m = "ImperfectParticleNumberMeasurement"
            p = imperfect_params(draw, cutoff if sim != "G" else 6)
        if m == "HomodyneMeasurement":
            # PF: nonzero rotation angle is documented as not yet supported
            p = {"phi": draw(progs.angle()) if sim == "G" else 0.0}
        if m == "GeneraldyneMeasurement":
            p = {"seed": draw(st.integers(0, 2**16))}
        step = {"k": "measure", "m": m, "modes": modes, "p": p}
        if len(modes) == len(active) and draw(st.booleans()):
            step["all_modes"] = True
        steps.append(step)
    hbar = draw(st.sampled_from([1.0, 2.0, 2.0]))
    return {"sim": sim, "d": d, "cutoff": cutoff, "hbar": hbar, "prep": prep, "steps": steps}


def make_lambda(src: str):
    return eval("lambda x: " + src, {"__builtins__": {}})


def make_measurement(pq, step):
    m, p = step["m"], step.get("p", {})
    if m == "HomodyneMeasurement":
        return pq.HomodyneMeasurement(phi=p["phi"])
    if m == "GeneraldyneMeasurement":
        rng = progs.rng_of(p["seed"])
        a = rng.normal(size=(2, 2))
        cov = a @ a.T + 2.0 * np.eye(2)  # 2x2, physical (>= vacuum)
        return pq.GeneraldyneMeasurement(detection_covariance=cov)
    if m == "ImperfectParticleNumberMeasurement":
        return pq.ImperfectParticleNumberMeasurement(
            detector_efficiency_matrix=detector_matrix(p["dseed"], p["rows"], p["cols"]))
    return getattr(pq, m)()


def detector_matrix(seed, rows, cols):
    """Column-stochastic P[detected, actual] (each actual count is detected as some count);
    a detector cannot see more photons than arrived when rows allow it."""
    rng = progs.rng_of(seed)
    m = rng.uniform(0.05, 1.0, size=(rows, cols))
    for a in range(cols):
        for dd in range(rows):
            if dd > a and a < rows - 1:
                m[dd, a] = 0.0
    m[0, 0] = 1.0
    if rows > 1:
        m[1:, 0] = 0.0
    return m / m.sum(axis=0, keepdims=True)


def make_step(pq, step, cutoff):
    if step["k"] == "gate":
        g = {"g": step["g"], "modes": step["modes"], "p": dict(step["p"])}
        if step.get("pexpr"):
            for name, src in step["pexpr"].items():
                g["p"][name] = make_lambda(src) if step.get("pexpr_lambda") else src
        inst = progs.make_gate(pq, g, cutoff)
        if step.get("when"):
            inst = inst.when(make_lambda(step["when"]) if step.get("when_lambda")
                             else step["when"])
        return inst
    if step["k"] == "measure":
        return make_measurement(pq, step)
    if step["k"] == "postselect":
        return pq.PostSelectPhotons(photon_counts=tuple(step["photons"]))
    raise KeyError(step["k"])


def build(pq, desc, upto=None, **cfg):
    sim = progs.make_simulator(pq, desc["sim"], desc["d"], desc["cutoff"],
                               desc.get("hbar", 2.0), **cfg)
    steps = desc["steps"] if upto is None else desc["steps"][:upto]
    with pq.Program() as program:
        progs.add_prep(pq, desc["sim"], desc["prep"], desc["d"])
        for s in steps:
            inst = make_step(pq, s, desc["cutoff"])
            if s.get("all_modes"):
                pq.Q() | inst
            else:
                pq.Q(*s["modes"]) | inst
    return program, sim


def has_postselect(desc) -> bool:
    return any(s["k"] == "postselect" for s in desc["steps"])


def has_sampling(desc) -> bool:
    return any(s["k"] == "measure" for s in desc["steps"])


def shots_none_ok(desc) -> bool:
    return all(s["m"] in SHOTS_NONE_OK[desc["sim"]] for s in desc["steps"]
               if s["k"] == "measure")


def kerr_after_measurement(desc) -> bool:
    """Trigger of the known finding C13:valid-crash:P:kerr-after-measurement."""
    seen = False
    for s in desc["steps"]:
        if s["k"] in ("measure", "postselect"):
            seen = True
        elif seen and s.get("g") in ("Kerr", "CrossKerr"):
            return True
    return False
