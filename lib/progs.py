"""JSON program descriptions, builders for every simulator, and Hypothesis strategies.

A *program description* is a plain dict

    {"d": 3, "prep": {...}, "gates": [{"g": "Beamsplitter", "modes": [2, 0],
                                         "p": {"theta": 0.3, "phi": 1.0}}, ...]}

Matrices are never stored: they are reconstructed deterministically from a drawn integer
(`seed`) through `haar_unitary` / `random_symplectic_blocks`, so a description is small,
hashable and replayable.  Scalar parameters are stored verbatim (and shrink).
"""

from __future__ import annotations

import math

import numpy as np
from hypothesis import strategies as st

# --------------------------------------------------------------------------------------
# deterministic matrix constructions


def rng_of(seed: int) -> np.random.Generator:
    return np.random.Generator(np.random.PCG64(int(seed) & (2**63 - 1)))


def haar_unitary(n: int, seed: int, kind: str = "haar") -> np.ndarray:
    rng = rng_of(seed)
    if kind == "identity":
        return np.eye(n, dtype=complex)
    if kind == "perm":
        return np.eye(n, dtype=complex)[rng.permutation(n)]
    if kind == "diag":
        return np.diag(np.exp(1j * rng.uniform(0, 2 * np.pi, n)))
    if kind == "real":
        z = rng.normal(size=(n, n))
        q, r = np.linalg.qr(z)
        return (q * np.sign(np.diag(r))).astype(complex)
    z = rng.normal(size=(n, n)) + 1j * rng.normal(size=(n, n))
    q, r = np.linalg.qr(z)
    ph = np.diag(r) / np.abs(np.diag(r))
    return q * ph


def gaussian_transform_blocks(n: int, seed: int, rmax: float):
    """passive, active blocks of U2 · squeezers(r) · U1 (complex form)."""
    rng = rng_of(seed)
    u1 = haar_unitary(n, int(rng.integers(2**60)))
    u2 = haar_unitary(n, int(rng.integers(2**60)))
    r = rng.uniform(-rmax, rmax, n)
    passive = u2 @ np.diag(np.cosh(r)) @ u1
    active = u2 @ np.diag(np.sinh(r)) @ u1.conj()
    return passive, active


# --------------------------------------------------------------------------------------
# gate catalogue

PASSIVE = ["Phaseshifter", "Beamsplitter", "Beamsplitter5050", "MachZehnder", "Fourier",
           "Interferometer"]
ACTIVE_GAUSS = ["Squeezing", "QuadraticPhase", "Squeezing2", "GaussianTransform"]
DISPLACE = ["Displacement", "PositionDisplacement", "MomentumDisplacement"]
KERR = ["Kerr", "CrossKerr"]
FOCK_ONLY = ["SNAP", "CubicPhase"]

ARITY = {
    "Phaseshifter": 1, "Beamsplitter": 2, "Beamsplitter5050": 2, "MachZehnder": 2,
    "Fourier": 1, "Interferometer": None, "Squeezing": 1, "QuadraticPhase": 1,
    "Squeezing2": 2, "GaussianTransform": None, "Displacement": 1,
    "PositionDisplacement": 1, "MomentumDisplacement": 1, "Kerr": 1, "CrossKerr": 2,
    "SNAP": 1, "CubicPhase": 1, "Attenuator": 1, "ControlledX": 2, "ControlledZ": 2,
}

ATOMS = [0.0, math.pi / 4, -math.pi / 4, math.pi / 2, -math.pi / 2, math.pi, -math.pi,
         2 * math.pi]


def angle():
    return st.one_of(
        st.floats(-2 * math.pi, 2 * math.pi, allow_nan=False, width=64),
        st.sampled_from(ATOMS),
    )


TINY = 1e-30


def small(mag: float):
    """Real parameter in [-mag, mag]; non-zero magnitudes below 1e-30 are mapped to 0.

    (Known finding C13/subnormal: scipy's logm inside `euler` raises for symplectic
    matrices with entries ~1e-99, e.g. QuadraticPhase(1e-99) on the Fock simulators; the
    trigger is excluded here by construction and replayed from regress/C13.)"""
    return st.floats(-mag, mag, allow_nan=False, width=64).map(
        lambda v: 0.0 if abs(v) < TINY else v)


def gate_params(name: str, scale: float = 1.0):
    """Strategy for the parameter dict of a gate."""
    s = scale
    if name == "Phaseshifter":
        return st.fixed_dictionaries({"phi": angle()})
    if name == "Beamsplitter":
        return st.fixed_dictionaries({"theta": angle(), "phi": angle()})
    if name in ("Beamsplitter5050", "Fourier"):
        return st.just({})
    if name == "MachZehnder":
        return st.fixed_dictionaries({"int_": angle(), "ext": angle()})
    if name == "Interferometer":
        return st.fixed_dictionaries({
            "seed": st.integers(0, 2**32),
            "kind": st.sampled_from(["haar", "haar", "haar", "perm", "diag", "real", "identity"]),
        })
    if name == "Squeezing":
        return st.fixed_dictionaries({"r": small(0.5 * s), "phi": angle()})
    if name == "QuadraticPhase":
        return st.fixed_dictionaries({"s": small(0.6 * s)})
    if name == "Squeezing2":
        return st.fixed_dictionaries({"r": small(0.5 * s), "phi": angle()})
    if name == "GaussianTransform":
        return st.fixed_dictionaries({"seed": st.integers(0, 2**32), "rmax": st.just(0.4 * s)})
    if name == "Displacement":
        return st.fixed_dictionaries({"r": small(0.6 * s), "phi": angle()})
    if name == "PositionDisplacement":
        return st.fixed_dictionaries({"x": small(0.6 * s)})
    if name == "MomentumDisplacement":
        return st.fixed_dictionaries({"p": small(0.6 * s)})
    if name == "Kerr":
        return st.fixed_dictionaries({"xi": angle()})
    if name == "CrossKerr":
        return st.fixed_dictionaries({"xi": angle()})
    if name == "SNAP":
        return st.fixed_dictionaries({"seed": st.integers(0, 2**32)})
    if name == "CubicPhase":
        return st.fixed_dictionaries({"gamma": small(0.1 * s)})
    if name == "Attenuator":
        return st.fixed_dictionaries({"theta": angle()})
    if name in ("ControlledX", "ControlledZ"):
        return st.fixed_dictionaries({"s": small(0.8 * s)})
    raise KeyError(name)


@st.composite
def ordered_modes(draw, d: int, k: int | None = None, pool=None):
    """Ordered subset of modes drawn as a permutation prefix (any order, any gaps)."""
    pool = list(range(d)) if pool is None else list(pool)
    if k is None:
        k = draw(st.integers(1, len(pool)))
    perm = draw(st.permutations(pool))
    return list(perm[:k])


@st.composite
def gate(draw, d: int, names, scale: float = 1.0, pool=None):
    pool = list(range(d)) if pool is None else list(pool)
    names = [n for n in names if (ARITY[n] or 1) <= len(pool)]
    name = draw(st.sampled_from(names))
    k = ARITY[name]
    modes = draw(ordered_modes(d, k, pool))
    p = draw(gate_params(name, scale))
    return {"g": name, "modes": modes, "p": p}


@st.composite
def occupation(draw, d: int, nmax: int):
    n = draw(st.integers(0, nmax))
    occ = [0] * d
    for _ in range(n):
        occ[draw(st.integers(0, d - 1))] += 1
    return occ


@st.composite
def prep(draw, d: int, nmax: int, kinds=("vacuum", "number", "superposition")):
    kind = draw(st.sampled_from(list(kinds)))
    if kind == "vacuum":
        return {"kind": "vacuum"}
    if kind == "number":
        return {"kind": "number", "occ": draw(occupation(d, nmax))}
    n = draw(st.integers(0, nmax))
    nterms = draw(st.integers(2, 3))
    terms, seen = [], set()
    for _ in range(nterms):
        occ = [0] * d
        for _ in range(n if draw(st.booleans()) else draw(st.integers(0, nmax))):
            occ[draw(st.integers(0, d - 1))] += 1
        if tuple(occ) in seen:
            continue
        seen.add(tuple(occ))
        re = draw(st.floats(-1, 1, allow_nan=False))
        im = draw(st.floats(-1, 1, allow_nan=False))
        if abs(re) + abs(im) < 1e-3:
            re = 1.0
        terms.append([occ, [re, im]])
    nrm = math.sqrt(sum(a[0] ** 2 + a[1] ** 2 for _, a in terms))
    terms = [[o, [a[0] / nrm, a[1] / nrm]] for o, a in terms]
    return {"kind": "superposition", "terms": terms}


def prep_terms(p, d):
    """-> list of (occupation tuple, complex amplitude)."""
    if p["kind"] == "vacuum":
        return [((0,) * d, 1.0 + 0j)]
    if p["kind"] == "number":
        return [(tuple(p["occ"]), 1.0 + 0j)]
    return [(tuple(o), complex(a[0], a[1])) for o, a in p["terms"]]


def prep_max_photons(p, d):
    return max(sum(o) for o, _ in prep_terms(p, d))


# --------------------------------------------------------------------------------------
# building piquasso objects


def make_gate(pq, g: dict, cutoff: int | None = None):
    name, p = g["g"], g["p"]
    k = len(g["modes"])
    if name == "Interferometer":
        return pq.Interferometer(haar_unitary(k, p["seed"], p.get("kind", "haar")))
    if name == "GaussianTransform":
        passive, active = gaussian_transform_blocks(k, p["seed"], p["rmax"])
        return pq.GaussianTransform(passive=passive, active=active)
    if name == "SNAP":
        theta = rng_of(p["seed"]).uniform(-np.pi, np.pi, cutoff)
        return pq.SNAP(theta)
    return getattr(pq, name)(**p)


def add_prep(pq, sim_kind: str, p: dict, d: int):
    """Emit the preparation instructions (inside a `with pq.Program()` block)."""
    terms = prep_terms(p, d)
    if sim_kind == "G":
        if p["kind"] != "vacuum":
            raise ValueError("Gaussian simulator: vacuum input only")
        pq.Q() | pq.Vacuum()
        return
    if sim_kind in ("PF", "P"):
        if p["kind"] == "vacuum":
            pq.Q() | pq.Vacuum()
        elif p["kind"] == "number":
            pq.Q() | pq.NumberState(list(p["occ"]))
        else:
            pq.Q() | pq.FockStateVector({o: a for o, a in terms})
        return
    if sim_kind == "F":
        pq.Q() | pq.Vacuum()
        if p["kind"] == "vacuum":
            return
        # the vacuum instruction sets |0><0| = 1: overwrite it unless it is a term
        has_vac = any(sum(o) == 0 for o, _ in terms)
        if not has_vac:
            pq.Q() | pq.DensityMatrix(ket=(0,) * d, bra=(0,) * d, coefficient=0.0)
        for o1, a1 in terms:
            for o2, a2 in terms:
                pq.Q() | pq.DensityMatrix(ket=o1, bra=o2, coefficient=a1 * np.conj(a2))
        return
    raise KeyError(sim_kind)


def make_simulator(pq, sim_kind: str, d: int, cutoff: int | None, hbar: float = 2.0,
                   **cfg):
    kw = dict(hbar=hbar, **cfg)
    if cutoff is not None:
        kw["cutoff"] = cutoff
    config = pq.Config(**kw)
    cls = {"G": pq.GaussianSimulator, "PF": pq.PureFockSimulator, "F": pq.FockSimulator,
           "P": pq.SamplingSimulator}[sim_kind]
    return cls(d=d, config=config)


def make_program(pq, desc: dict, sim_kind: str, cutoff: int | None = None, upto=None):
    gates = desc["gates"] if upto is None else desc["gates"][:upto]
    with pq.Program() as program:
        add_prep(pq, sim_kind, desc["prep"], desc["d"])
        for g in gates:
            pq.Q(*g["modes"]) | make_gate(pq, g, cutoff)
    return program


def run(pq, desc: dict, sim_kind: str, cutoff: int | None, hbar: float = 2.0, upto=None,
        **cfg):
    sim = make_simulator(pq, sim_kind, desc["d"], cutoff, hbar, **cfg)
    program = make_program(pq, desc, sim_kind, cutoff, upto)
    return sim.execute(program).state


SUPPORT = {
    "G": set(PASSIVE + ACTIVE_GAUSS + DISPLACE + ["Attenuator", "ControlledX", "ControlledZ"]),
    "PF": set(PASSIVE + ACTIVE_GAUSS + DISPLACE + KERR + FOCK_ONLY + ["Attenuator"]),
    "F": set(PASSIVE + ACTIVE_GAUSS + DISPLACE + KERR + FOCK_ONLY + ["Attenuator"]),
    "P": set(PASSIVE + KERR),
}


def basis_tuples(pq, d, cutoff):
    from piquasso._math.fock import get_fock_space_basis

    return [tuple(int(x) for x in r) for r in get_fock_space_basis(d, cutoff)]
