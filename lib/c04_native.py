"""Driver (ii) of C04: build and run the libFuzzer + ASan + UBSan target
`native/kernels_fuzz.cpp` against the C++ sources of the working tree ($PIQUASSO_REPO).

* build: clang++-14, one object per translation unit (compiled concurrently), cached under
  /verif/.build/c04fuzz/<sha256 of sources + flags>/ ; a lock file serialises the shards.
* campaign: `-runs=N -seed=<derived from VERIF_SEED and the shard>` on a fresh corpus
  directory holding a few hand-written seeds, `ASAN_OPTIONS=detect_leaks=0`.
* libFuzzer stops at the first crash.  The crash is classified into a bucket
      C04:native:asan:<kind>:<file>   C04:native:ubsan:<kind>:<file>
      C04:native:mismatch:<kernel>    C04:native:crash:<summary>
  recorded with the crashing input (hex), the exclusion tokens that were active and the
  decoded description, then the campaign continues with the trigger excluded *inside the
  target* (C04_SKIP token: the overflow region of the permanent, the >= 2 mode region of
  the torontonian, otherwise the whole kernel/precision); exclusions are counted.
* replay: `prop_native(case)` runs the saved input through the same binary.
"""

from __future__ import annotations

import fcntl
import hashlib
import os
import re
import shutil
import subprocess
import tempfile
from concurrent.futures import ThreadPoolExecutor
from pathlib import Path

from lib import native_build
from lib.harness import Part, Violation, derive_seed

VERIF = Path(__file__).resolve().parent.parent
NATIVE = VERIF / "native"
BUILD = VERIF / ".build" / "c04fuzz"
CXX = os.environ.get("C04_CXX", "clang++-14")
SRC = ["permanent.cpp", "permanent_laplace.cpp", "torontonian.cpp", "loop_torontonian.cpp",
       "torontonian_common.cpp", "pfaffian.cpp"]
CFLAGS = ["-std=c++17", "-O1", "-g", "-fno-omit-frame-pointer",
          "-fsanitize=fuzzer-no-link,address,undefined", "-fno-sanitize-recover=undefined",
          "-DC04_INTERPOSE_HWC"]
LDFLAGS = ["-fsanitize=fuzzer,address,undefined"]
RUNS = {"quick": 64000, "thorough": 4000000}
FUZZ_SECONDS = {"quick": 40.0, "thorough": 600.0}  # per shard, after the (cached) build
MAX_ROUNDS = 10
KERNELS = ["permanent", "permanent_laplace", "torontonian", "loop_torontonian", "pfaffian"]


class FuzzBuildError(RuntimeError):
    pass


def _digest(repo: Path) -> str:
    h = hashlib.sha256()
    for p in sorted((repo / "src").iterdir()):
        if p.suffix in (".cpp", ".hpp", ".h"):
            h.update(p.name.encode())
            h.update(p.read_bytes())
    for p in (NATIVE / "kernels_fuzz.cpp", NATIVE / "ref_kernels.hpp"):
        h.update(p.read_bytes())
    h.update(" ".join([CXX] + CFLAGS + LDFLAGS).encode())
    return h.hexdigest()[:20]


def build() -> Path:
    repo = native_build.repo_root()
    out_dir = BUILD / _digest(repo)
    exe = out_dir / "kernels_fuzz"
    if exe.exists():
        return exe
    out_dir.mkdir(parents=True, exist_ok=True)
    with open(out_dir / ".lock", "w") as lock:
        fcntl.flock(lock, fcntl.LOCK_EX)
        if exe.exists():
            return exe
        # the harness translation unit (slowest to compile) only depends on the harness
        # sources and on the repository *headers*: cache its object separately so that a
        # change of a .cpp file does not recompile it
        hh = hashlib.sha256()
        for p in sorted((repo / "src").iterdir()):
            if p.suffix in (".hpp", ".h"):
                hh.update(p.name.encode())
                hh.update(p.read_bytes())
        for p in (NATIVE / "kernels_fuzz.cpp", NATIVE / "ref_kernels.hpp"):
            hh.update(p.read_bytes())
        hh.update(" ".join([CXX] + CFLAGS).encode())
        hdir = BUILD / "harness-objects"
        hdir.mkdir(parents=True, exist_ok=True)
        hobj = hdir / f"kernels_fuzz-{hh.hexdigest()[:20]}.o"
        units = [] if hobj.exists() else [(NATIVE / "kernels_fuzz.cpp", hobj)]
        units += [(repo / "src" / s, out_dir / (s + ".o")) for s in SRC]
        inc = [f"-I{repo / 'src'}", f"-I{NATIVE}"]

        def cc(unit):
            src, obj = unit
            tmpo = obj.with_name(f".{obj.name}.{os.getpid()}")
            cmd = [CXX, *CFLAGS, *inc, "-c", str(src), "-o", str(tmpo)]
            p = subprocess.run(cmd, capture_output=True, text=True)
            if p.returncode != 0:
                raise FuzzBuildError(f"{' '.join(cmd)}\n{p.stderr[-3000:]}")
            os.replace(tmpo, obj)
            return obj

        with ThreadPoolExecutor(len(units)) as ex:
            objs = list(ex.map(cc, units))
        if hobj not in objs:
            objs.append(hobj)
        tmp = out_dir / f".kernels_fuzz.{os.getpid()}"
        cmd = [CXX, *LDFLAGS, *[str(o) for o in objs], "-o", str(tmp)]
        p = subprocess.run(cmd, capture_output=True, text=True)
        if p.returncode != 0:
            raise FuzzBuildError(f"{' '.join(cmd)}\n{p.stderr[-3000:]}")
        os.replace(tmp, exe)
    _prune(out_dir)
    return exe


def _prune(keep: Path) -> None:
    try:
        dirs = sorted((d for d in BUILD.iterdir() if d.is_dir()), key=lambda d: d.stat().st_mtime)
    except FileNotFoundError:
        return
    for d in dirs[:-4]:
        if d != keep and d.name != "harness-objects":
            shutil.rmtree(d, ignore_errors=True)


# ---- seeds (byte layout documented in kernels_fuzz.cpp: one byte per decision) ----------

def _seed_inputs() -> list[bytes]:
    def perm(kernel, f32, hwc, rows, cols, entries, real_only=0):
        b = [kernel, f32, hwc, len(rows), len(cols), *rows, *cols, 0, real_only]
        return bytes(b + list(entries))

    seeds = [
        perm(0, 0, 4, [1, 1], [1, 1], [1, 2, 3, 4, 5, 6, 7, 8]),
        perm(0, 0, 0, [2, 1], [1, 2], [1, 2, 3, 4, 5, 6, 7, 8]),   # hardware_concurrency() == 0
        perm(1, 0, 0, [2, 1], [2, 2], [1, 2, 3, 4, 5, 6, 7, 8]),
        perm(0, 0, 16, [17, 17], [17, 17], [1, 0, 1, 0, 1, 0, 1, 0]),
        perm(0, 0, 16, [18, 18], [18, 18], [1, 0, 1, 0, 1, 0, 1, 0]),
        perm(0, 1, 3, [19, 19], [20, 18], [3, 4, 5, 6, 1, 0, 2, 9]),
        perm(1, 0, 7, [18, 18], [19, 18], [1, 0, 1, 0, 1, 0, 1, 0]),
        perm(1, 0, 64, [2, 1, 0], [2, 1, 1], list(range(1, 19))),
        perm(0, 0, 5, [36, 2], [19, 19], [3, 4, 5, 6, 1, 0, 2, 9]),
        perm(1, 1, 9, [20, 20], [21, 20], [10, 0, 8, 0, 9, 0, 3, 0]),
        perm(0, 0, 1, [1, 1, 1, 1, 1, 1], [1, 1, 1, 1, 1, 1], [(7 * i + 3) % 24 for i in range(72)]),
        perm(0, 0, 2, [3, 0, 2, 1, 0], [2, 2, 2], [(5 * i + 1) % 24 for i in range(30)]),
        bytes([2, 0, 3, 1, 2, 3, 4, 5]),                               # torontonian d=1
        bytes([2, 0, 3, 3, 1] + [(3 * i + 1) % 24 for i in range(21)]),  # torontonian d=3
        bytes([3, 1, 3, 2, 2] + [(5 * i + 2) % 24 for i in range(14)]),  # loop torontonian d=2
        bytes([3, 0, 9, 4, 0] + [(7 * i + 5) % 24 for i in range(44)]),  # loop torontonian d=4
        bytes([4, 0, 0, 4] + [1, 2, 3, 4, 5, 6]),                      # pfaffian n=4
        bytes([4, 1, 0, 6] + [0, 2, 3, 4, 5, 6, 7, 8, 9, 1, 2, 3, 4, 5, 6]),  # pivoting
        bytes([4, 0, 0, 10] + [(11 * i + 1) % 24 for i in range(45)]),
    ]
    return seeds


# ---- running / classification -----------------------------------------------------------

def _slug(s: str) -> str:
    return re.sub(r"[^A-Za-z0-9]+", "-", s.strip().lower()).strip("-")


def classify(stderr: str) -> tuple[str, str] | None:
    """(bucket, one-line message) of the first crash report in libFuzzer's stderr."""
    m = re.search(r"C04-MISMATCH kernel=(\S+) (.*)", stderr)
    if m:
        return f"C04:native:mismatch:{m.group(1)}", m.group(0)[:600]
    m = re.search(r"^(\S+?([^/\s]+\.(?:cpp|hpp|h))):(\d+):(\d+): runtime error: (.*)$", stderr, re.M)
    if m:
        kind = m.group(5)
        kind = re.sub(r":.*", "", kind)
        kind = re.sub(r"\b(\d+|0x[0-9a-f]+)\b", "", kind)
        return (f"C04:native:ubsan:{_slug(kind)}:{m.group(2)}",
                f"{m.group(2)}:{m.group(3)}:{m.group(4)}: runtime error: {m.group(5)}"[:600])
    m = re.search(r"ERROR: AddressSanitizer: (\S+)(.*)", stderr)
    if m:
        kind = m.group(1)
        frames = re.findall(r"#\d+ 0x[0-9a-f]+ in (.+?) (/\S+?([^/\s]+\.(?:cpp|hpp|h))):(\d+)", stderr)
        where = next(((fn, f, b, ln) for fn, f, b, ln in frames
                      if "/native/" not in f and "/include/" not in f and "/lib/" not in f), None)
        fname = where[2] if where else "unknown"
        msg = f"AddressSanitizer: {kind}{m.group(2)[:120]}"
        if where:
            msg += f" in {where[0][:80]} {where[2]}:{where[3]}"
        return f"C04:native:asan:{kind}:{fname}", msg
    m = re.search(r"ERROR: libFuzzer: (.*)", stderr)
    if m:
        return f"C04:native:crash:{_slug(m.group(1))}", m.group(0)[:300]
    return None


def _describe(exe: Path, data: bytes) -> str:
    with tempfile.TemporaryDirectory(prefix="c04desc-") as td:
        f = Path(td) / "input"
        f.write_bytes(data)
        env = dict(os.environ, ASAN_OPTIONS="detect_leaks=0", C04_DESCRIBE="1",
                   C04_SKIP="k:" + ",k:".join(KERNELS) + ",perm_ovf,lap_ovf,tor_d2,ltor_d2")
        p = subprocess.run([str(exe), str(f)], env=env, capture_output=True, text=True,
                           timeout=120)
    m = re.search(r"C04-DESC (.*)", p.stderr)
    return m.group(1)[:1500] if m else ""


def exclusion_token(bucket: str, desc: str) -> str:
    """Smallest region of the input space, expressible inside the target, that contains the
    trigger of this crash."""
    words = desc.split()
    kernel = words[0] if words else ""
    prec = words[1] if len(words) > 1 else ""
    if kernel in ("permanent", "permanent_laplace") and "region=binomial-int-overflow" in desc:
        return "perm_ovf" if kernel == "permanent" else "lap_ovf"
    m = re.search(r"\bd=(\d+)", desc)
    if kernel in ("torontonian", "loop_torontonian") and m and int(m.group(1)) >= 2 \
            and ":asan:" in bucket:
        return "tor_d2" if kernel == "torontonian" else "ltor_d2"
    if kernel:
        return f"k:{kernel}:{prec}" if prec in ("f32", "f64") and ":mismatch:" in bucket \
            else f"k:{kernel}"
    return ""


TOKEN_BUCKET_HINT = {
    "perm_ovf": "permanent with int-overflowing binomial product",
    "lap_ovf": "permanent_laplace with int-overflowing binomial product",
    "tor_d2": "torontonian with >= 2 modes",
    "ltor_d2": "loop_torontonian with >= 2 modes",
}


def _read_stats(path: Path) -> tuple[dict, list[int]]:
    stats: dict = {}
    hashes: list[int] = []
    try:
        for line in path.read_text().splitlines():
            k, _, v = line.partition(" ")
            if k == "hash":
                hashes.append(int(v, 16) >> 1)
            else:
                stats[k] = int(v)
    except (FileNotFoundError, ValueError):
        pass
    return stats, hashes


def run_once(exe: Path, args: list[str], skip: list[str], stats: Path | None, timeout: float,
             extra_env: dict | None = None):
    env = dict(os.environ, ASAN_OPTIONS="detect_leaks=0:abort_on_error=0",
               UBSAN_OPTIONS="print_stacktrace=0", C04_SKIP=",".join(skip))
    env.pop("C04_DESCRIBE", None)
    if stats is not None:
        env["C04_STATS"] = str(stats)
    if extra_env:
        env.update(extra_env)
    try:
        p = subprocess.run([str(exe), *args], env=env, capture_output=True, text=True,
                           errors="replace", timeout=timeout)
        return p.returncode, p.stderr
    except subprocess.TimeoutExpired as e:
        err = e.stderr.decode(errors="replace") if isinstance(e.stderr, bytes) else (e.stderr or "")
        return -999, err


def run_native(ctx, tier: str) -> None:
    import time

    exe = build()
    total = RUNS[tier]
    n = max(1, total // ctx.nshards)
    t_end = time.monotonic() + FUZZ_SECONDS[tier]
    skip: list[str] = []
    seen: set[str] = set()
    work = Path(tempfile.mkdtemp(prefix=f"c04fuzz-{ctx.shard}-", dir=str(VERIF / ".build")))
    try:
        done = 0
        for rnd in range(MAX_ROUNDS):
            remaining = n - done
            left = t_end - time.monotonic()
            if remaining <= 0 or left < 5:
                break
            corpus = work / f"corpus{rnd}"
            art = work / f"art{rnd}"
            corpus.mkdir()
            art.mkdir()
            for i, s in enumerate(_seed_inputs()):
                (corpus / f"seed{i:02d}").write_bytes(s)
            stats_file = work / f"stats{rnd}.txt"
            seed = derive_seed(ctx.seed, "C04", "native", ctx.shard, rnd) % (2 ** 31 - 1) + 1
            rc, err = run_once(
                exe,
                [f"-runs={remaining}", f"-seed={seed}", "-max_len=160", "-timeout=60",
                 f"-max_total_time={int(left)}", "-print_final_stats=0", "-verbosity=0",
                 f"-artifact_prefix={art}/", str(corpus)],
                skip, stats_file, timeout=left + 120)
            stats, hashes = _read_stats(stats_file)
            done += stats.get("inputs", 0)
            ctx.evaluations += stats.get("executed", 0)
            ctx.hashes.update(hashes)
            for k, v in stats.items():
                if k.startswith("kernel:") and v:
                    ctx.count("native:" + k.split(":", 1)[1], v)
                    if k.endswith(":f32"):
                        ctx.count("overload_32bit", v)
                elif k == "mult_gt1" and v:
                    ctx.count("mult_gt1", v)
                elif k == "small_norm" and v:
                    ctx.count("small_norm_matrix", v)
                    ctx.count("native:small_norm", v)
                elif k == "range_skipped" and v:
                    ctx.count("native:range_skipped", v)
                elif k in ("mult_ge17", "total_ge20", "out_of_domain", "f32_overflow_skipped") and v:
                    ctx.count("native:" + k, v)
                elif k.startswith("skip:") and v:
                    ctx.count("native:skipped:" + k[5:], v)
            if rc == 0:
                break
            if rc == -999:
                # the wall-clock guard fired (overloaded machine): inconclusive, never a violation
                ctx.notes["native_round_timeout"] += 1
                break
            cls = classify(err)
            crash_files = sorted(art.glob("*"))
            data = crash_files[0].read_bytes() if crash_files else b""
            if data and (cls is None or cls[0].endswith(":unknown")):
                # truncated report: classify from a re-run of the saved input alone
                _rc2, err2 = run_once(exe, [str(crash_files[0])], skip, None, timeout=900)
                cls = classify(err2) or cls
            if cls is not None and cls[0].endswith(":unknown") and not data:
                ctx.notes["native_unclassifiable_report"] += 1
                break
            if cls is None:
                raise FuzzBuildError(f"fuzz target exited {rc} without a recognisable report:\n"
                                     + err[-3000:])
            bucket, msg = cls
            desc = _describe(exe, data) if data else ""
            case = {"hex": data.hex(), "skip": list(skip), "desc": desc}
            if ctx.is_known(bucket):
                ctx.known_hits[bucket] += 1
                ctx.known_examples.setdefault(bucket, {"case": case, "message": msg})
            elif bucket not in seen:
                ctx.add_failure("native", bucket, case, f"{msg}\n  input: {desc}")
            seen.add(bucket)
            tokens = [exclusion_token(bucket, desc)]
            if bucket.endswith(":torontonian_common.cpp") and tokens[0] in ("tor_d2", "ltor_d2"):
                tokens = ["tor_d2", "ltor_d2"]  # code shared by both kernels
            tokens = [t for t in tokens if t and t not in skip]
            if not tokens:
                # cannot exclude any further: stop this shard's campaign
                ctx.notes["native_campaign_stopped_early"] += 1
                break
            for token in tokens:
                skip.append(token)
                ctx.count("native:exclusion:" + token)
            ctx.exclude(bucket)
            # a round that ended in a crash does not consume the search budget
            t_end = max(t_end, time.monotonic() + FUZZ_SECONDS[tier])
        ctx.count("native_rounds", rnd + 1)
        # cases skipped inside the target because of an exclusion are counted per token
    finally:
        shutil.rmtree(work, ignore_errors=True)


def prop_native(case, ctx):
    """Replay: run the saved input through the same binary (same exclusions active)."""
    exe = build()
    data = bytes.fromhex(case["hex"])
    with tempfile.TemporaryDirectory(prefix="c04replay-") as td:
        f = Path(td) / "input"
        f.write_bytes(data)
        rc, err = run_once(exe, [str(f)], list(case.get("skip", [])), None, timeout=300)
    ctx.case({"native": case["hex"]}, True, ["native_replay"])
    if rc != 0:
        cls = classify(err)
        if cls is None:
            raise Violation("C04:native:crash:unclassified", err[-600:])
        raise Violation(cls[0], cls[1] + "\n  input: " + case.get("desc", ""))


def parts(tier):
    return [
        Part("native", prop_native, kind="custom", run=run_native,
             budget_s={"quick": 300, "thorough": 1200}),
    ]
