#!/venv/bin/python
"""MANIFEST.setup_cmd: offline preparation after a fresh restore.

* builds the native extension modules from /repo's working tree into /verif/.build
* makes sure hypothesis is importable in /venv (installs from the offline wheelhouse if not)
* installs atheris into /verif/.deps from the offline wheelhouse (best effort)
"""
import os, subprocess, sys
from pathlib import Path

VERIF = Path(__file__).resolve().parent
sys.path.insert(0, str(VERIF))
WHEELS = "/opt/veriftools/wheels"

def pip(*args):
    return subprocess.run([sys.executable, "-m", "pip", "install", "--no-index",
                           "--find-links", WHEELS, *args], capture_output=True, text=True)

try:
    import hypothesis  # noqa
except ImportError:
    r = pip("hypothesis")
    print(r.stdout[-500:], r.stderr[-500:])
try:
    import jsonschema  # noqa
except ImportError:
    r = pip("jsonschema")
    print(r.stdout[-500:], r.stderr[-500:])
deps = VERIF / ".deps"
if not (deps / "atheris").exists():
    r = pip("--target", str(deps), "atheris")
    print("atheris:", "ok" if r.returncode == 0 else "NOT installed: " + r.stderr[-300:])
from lib import native_build
for k, v in native_build.build_parallel().items():
    print("built", k, v)
for d in ("evidence", "replays", ".build"):
    (VERIF / d).mkdir(exist_ok=True)
try:  # warm numba's on-disk cache once (otherwise every shard of every check compiles)
    subprocess.run([sys.executable, str(VERIF / "lib" / "warmup.py")], timeout=900)
except Exception as e:  # noqa: BLE001
    print("warm-up skipped:", e)
print("setup ok")
