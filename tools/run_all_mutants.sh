#!/bin/bash
# run the mutant catalogues of the listed checks one after the other
for pid in "$@"; do /verif/tools/mutants.py $pid; done
