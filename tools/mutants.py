#!/venv/bin/python
"""Sensitivity protocol runner.

    tools/mutants.py C01 [name ...]     apply each catalogued mutation of the property to a
                                        scratch worktree, run the quick check against it,
                                        record exit code / buckets in sensitivity/Cxx.json

The catalogue is tools/mutants/<PID>.json: {name: {"edits": [[file, old, new], ...], "note": ...}}
"""
import json, subprocess, sys, os, time
from pathlib import Path

VERIF = Path(__file__).resolve().parent.parent
WT = Path(os.environ.get("PQ_MUT_WT", "/tmp/pqmut2"))


def sh(*a, **k):
    return subprocess.run(a, text=True, capture_output=True, **k)


def ensure_wt():
    head = sh("git", "-C", "/repo", "rev-parse", "HEAD").stdout.strip()
    if not WT.exists():
        r = sh("git", "-C", "/repo", "worktree", "add", "-q", "--detach", str(WT), head)
        assert r.returncode == 0, r.stderr
    sh("git", "-C", str(WT), "checkout", "-q", "--detach", head)
    sh("git", "-C", str(WT), "checkout", "-q", "--", ".")


def main():
    pid = sys.argv[1]
    only = set(sys.argv[2:])
    cat = json.loads((VERIF / "tools" / "mutants" / f"{pid}.json").read_text())
    outp = VERIF / "sensitivity" / f"{pid}.json"
    outp.parent.mkdir(exist_ok=True)
    res = json.loads(outp.read_text()) if outp.exists() else {}
    for name, m in cat.items():
        if only and name not in only:
            continue
        ensure_wt()
        ok = True
        for f, old, new in m["edits"]:
            p = WT / f
            s = p.read_text()
            if old not in s:
                print(f"{name}: pattern not found in {f}")
                ok = False
                break
            p.write_text(s.replace(old, new, 1))
        if not ok:
            res[name] = {"status": "pattern-not-found"}
            continue
        diff = sh("git", "-C", str(WT), "diff").stdout
        env = dict(os.environ, PIQUASSO_REPO=str(WT), VERIF_NO_EVIDENCE="1")
        t = time.time()
        r = sh("/venv/bin/python", str(VERIF / "run_check.py"), pid, "--tier", "quick", env=env)
        buckets = [l.split("bucket=")[1].strip() for l in r.stdout.splitlines() if "bucket=" in l]
        res[name] = {"exit": r.returncode, "buckets": buckets[:6], "wall_s": round(time.time() - t),
                     "note": m.get("note", ""), "diff_lines": len(diff.splitlines())}
        print(f"{pid} {name}: exit={r.returncode} {buckets[:3]} ({res[name]['wall_s']}s)", flush=True)
        if r.returncode == 2:
            print(r.stdout[-1500:])
        sh("git", "-C", str(WT), "checkout", "-q", "--", ".")
        outp.write_text(json.dumps(res, indent=1, sort_keys=True))


main()
