#!/venv/bin/python
"""mkpatch.py OUT FILE OLD NEW [FILE OLD NEW ...] — build a unified diff against /repo HEAD
by literal replacement (first occurrence) in a scratch worktree."""
import subprocess, sys
from pathlib import Path
WT = Path("/tmp/pqmut2")
if not WT.exists():
    subprocess.check_call(["git", "-C", "/repo", "worktree", "add", "-q", "--detach", str(WT), "HEAD"])
subprocess.check_call(["git", "-C", str(WT), "checkout", "-q", "--detach", subprocess.check_output(["git","-C","/repo","rev-parse","HEAD"], text=True).strip()])
subprocess.check_call(["git", "-C", str(WT), "checkout", "-q", "--", "."])
out = sys.argv[1]
args = sys.argv[2:]
for i in range(0, len(args), 3):
    f, old, new = args[i:i+3]
    p = WT / f
    s = p.read_text()
    old = old.encode().decode("unicode_escape"); new = new.encode().decode("unicode_escape")
    if old not in s:
        sys.exit(f"pattern not found in {f}: {old!r}")
    p.write_text(s.replace(old, new, 1))
diff = subprocess.check_output(["git", "-C", str(WT), "diff"], text=True)
Path(out).write_text(diff)
subprocess.check_call(["git", "-C", str(WT), "checkout", "-q", "--", "."])
print(f"{out}: {len(diff.splitlines())} lines")
