#!/usr/bin/env python3
"""import_seed.py <PID> <a|b> <breaks> <needs> [checks,comma] — copy /tmp/seed_out_<PID>/<v> into seeded/<PID>_<v>."""
import json, shutil, sys
from pathlib import Path
pid, v, breaks, needs = sys.argv[1:5]
checks = sys.argv[5].split(",") if len(sys.argv) > 5 else [pid]
src = Path(f"/tmp/seed_out_{pid}/{v}")
dst = Path(f"/verif/seeded/{pid}_{v}")
dst.mkdir(parents=True, exist_ok=True)
for f in ("patch.diff", "demo.py", "note.md"):
    shutil.copy(src / f, dst / f)
meta = {"property": pid, "checks": checks, "breaks": breaks, "needs_to_manifest": needs,
        "origin": f"independent sub-agent seed-{pid.lower()} given only the property text and a scratch worktree",
        "confirmed": "demo.py exits 0 on the unpatched tree and 1 with patch.diff applied (re-run by tools/seeded.py, see runs); existing tests run by the sub-agent with the patch applied are listed in note.md"}
(dst / "meta.json").write_text(json.dumps(meta, indent=1))
print(dst)
