#!/bin/bash
# usage: tools/sens.sh <PID> <patch-file | -e 'python-edit-script'> [extra run_check args]
# Applies a mutation to a scratch worktree of /repo, runs the quick check against it, reverts.
set -u
PID=$1; PATCH=$2; shift 2
WT=${PQ_MUT_WT:-/tmp/pqmut2}
if [ ! -d "$WT" ]; then git -C /repo worktree add -q --detach "$WT" HEAD || exit 3; fi
git -C "$WT" checkout -q --detach $(git -C /repo rev-parse HEAD); git -C "$WT" checkout -q -- .
if ! git -C "$WT" apply "$PATCH"; then echo "patch does not apply"; exit 3; fi
PIQUASSO_REPO=$WT VERIF_NO_EVIDENCE=1 /venv/bin/python /verif/run_check.py "$PID" --tier quick "$@" | grep -E "VIOLATION|HARNESS|KNOWN|tier=|bucket=" | head -20
rc=${PIPESTATUS[0]}
git -C "$WT" checkout -q -- .
echo "exit=$rc"
