#!/venv/bin/python
"""Run registered checks against a seeded breaking change.

    tools/seeded.py seeded/<name> [--tier quick] [--in-repo]

Reads seeded/<name>/meta.json ({"property": "C06", "checks": ["C06"], ...}), applies
patch.diff to a scratch worktree of /repo's HEAD (or to /repo itself with --in-repo, undone
straight afterwards), runs the demo (must FAIL with the patch, PASS without) and each listed
check with PIQUASSO_REPO pointing at the patched tree, and records the outcome in meta.json.
"""
import json, os, subprocess, sys, time
from pathlib import Path

VERIF = Path(__file__).resolve().parent.parent
WT = Path(os.environ.get("PQ_SEED_WT", "/tmp/pqseed"))


def sh(*a, **k):
    return subprocess.run(a, text=True, capture_output=True, **k)


def main():
    d = Path(sys.argv[1]).resolve()
    in_repo = "--in-repo" in sys.argv
    tier = "quick"
    meta = json.loads((d / "meta.json").read_text())
    head = sh("git", "-C", "/repo", "rev-parse", meta.get("base_commit", "HEAD")).stdout.strip()
    if in_repo:
        tree = Path("/repo")
        assert sh("git", "-C", "/repo", "status", "--porcelain").stdout.strip() == "", "repo dirty"
    else:
        tree = WT
        if not WT.exists():
            r = sh("git", "-C", "/repo", "worktree", "add", "-q", "--detach", str(WT), head)
            assert r.returncode == 0, r.stderr
        sh("git", "-C", str(WT), "checkout", "-q", "--detach", head)
        sh("git", "-C", str(WT), "checkout", "-q", "--", ".")
    demo = d / "demo.py"
    out = {"repo_head": head, "ran_at": time.strftime("%Y-%m-%d %H:%M:%S")}
    if demo.exists():
        r0 = sh("/venv/bin/python", str(demo), str(tree))
        out["demo_unpatched_exit"] = r0.returncode
    r = sh("git", "-C", str(tree), "apply", str(d / "patch.diff"))
    if r.returncode != 0:
        print("patch does not apply:", r.stderr)
        sys.exit(3)
    try:
        if demo.exists():
            r1 = sh("/venv/bin/python", str(demo), str(tree))
            out["demo_patched_exit"] = r1.returncode
            print(f"demo: unpatched exit {out['demo_unpatched_exit']}, patched exit {r1.returncode}")
        results = {}
        for pid in meta.get("checks", [meta["property"]]):
            env = dict(os.environ, PIQUASSO_REPO=str(tree), VERIF_NO_EVIDENCE="1")
            t = time.time()
            rr = sh("/venv/bin/python", str(VERIF / "run_check.py"), pid, "--tier", tier, env=env)
            buckets = [l.split("bucket=")[1].strip() for l in rr.stdout.splitlines() if "bucket=" in l]
            results[pid] = {"exit": rr.returncode, "buckets": buckets[:8], "wall_s": round(time.time() - t)}
            print(f"{d.name}: {pid} exit={rr.returncode} {buckets[:3]}")
            if rr.returncode == 2:
                print(rr.stdout[-1200:])
        out["checks"] = results
        out["detected"] = any(v["exit"] == 1 for v in results.values())
    finally:
        sh("git", "-C", str(tree), "checkout", "-q", "--", ".")
    meta.setdefault("runs", []).append(out)
    meta["detected_by"] = sorted(p for p, v in out.get("checks", {}).items() if v["exit"] == 1)
    (d / "meta.json").write_text(json.dumps(meta, indent=1) + "\n")


main()
